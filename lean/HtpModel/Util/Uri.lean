/- URI splitting, authority parsing, hostname validation and URI normalisation (htp_util.c). -/
import HtpModel.Util.Decode
import HtpModel.Prim.Num
import HtpModel.Prim.Bstr

namespace Htp.Uri
open Htp.Gen Htp.Decode

/-- htp_uri_t with NULL/empty kept distinct -/
structure UriRaw where
  scheme : Option Bytes := none
  username : Option Bytes := none
  password : Option Bytes := none
  hostname : Option Bytes := none
  port : Option Bytes := none
  portNumber : Int := -1
  path : Option Bytes := none
  query : Option Bytes := none
  fragment : Option Bytes := none
  deriving Repr, DecidableEq, Inhabited

/-- memchr: split at the first `c`: (before, after) -/
def splitAt1 (c : UInt8) (b : Bytes) : Option (Bytes × Bytes) :=
  let pre := b.takeWhile (· != c)
  if pre.length < b.length then some (pre, b.drop (pre.length + 1)) else none

def stripTrailingSpaces (b : Bytes) : Bytes := Bstr.dropWhileEnd (· == 0x20) b

/-- credentials / host / port found in an authority -/
structure Auth where
  username : Option Bytes := none
  password : Option Bytes := none
  hostname : Option Bytes := none
  port : Option Bytes := none
  deriving Repr, DecidableEq, Inhabited

/-- host[:port] part of an authority (after the credentials) -/
def parseHostPart (hostpart : Bytes) : Option Bytes × Option Bytes :=
  match hostpart with
  | 0x5b :: _ =>                           -- '['
    (match splitAt1 0x5d hostpart with     -- ']'
     | none => (some hostpart, none)
     | some (pre, after) =>
       match splitAt1 0x3a after with
       | some (_, port) => (some (pre ++ [0x5d]), some port)   -- bytes before the colon are dropped (S6)
       | none => (some (pre ++ [0x5d]), none))
  | _ =>
    match splitAt1 0x3a hostpart with
    | some (host, port) => (some host, some port)
    | none => (some hostpart, none)

/-- the authority part of htp_parse_uri: `auth` is data[start..pos) -/
def parseAuthority (auth : Bytes) : Auth :=
  match splitAt1 0x40 auth with          -- '@'
  | some (cred, hostpart) =>
    let (h, p) := parseHostPart hostpart
    (match splitAt1 0x3a cred with       -- ':'
     | some (user, pass) => { username := some user, password := some pass, hostname := h, port := p }
     | none => { username := some cred, hostname := h, port := p })
  | none => let (h, p) := parseHostPart auth; { hostname := h, port := p }

/-- scheme test: (scheme, rest after "scheme:") -/
def splitScheme (data : Bytes) : Option Bytes × Bytes :=
  if data.head? != some 0x2f then
    match splitAt1 0x3a data with
    | some (sch, after) => (some sch, after)
    | none => (none, data)
  else (none, data)

def authEnd (x : UInt8) : Bool := x != 0x3f && x != 0x2f && x != 0x23

/-- authority test: only after a scheme, exactly two slashes, and at least one more byte
    (`pos + 2 < len`, `data[pos] == '/'`, `data[pos+1] == '/'`, `data[pos+2] != '/'`).
    Returns (authority text, rest after it). -/
def splitAuthority (scheme : Option Bytes) (rest : Bytes) : Option Bytes × Bytes :=
  if scheme.isSome && rest.take 2 == [0x2f, 0x2f] && (rest.drop 2).head?.isSome && (rest.drop 2).head? != some 0x2f then
    let r := rest.drop 2
    let auth := r.takeWhile authEnd
    (some auth, r.drop auth.length)
  else (none, rest)

structure Tail where
  path : Bytes := []
  query : Option Bytes := none
  fragment : Option Bytes := none
  deriving Repr, DecidableEq, Inhabited

def pathEnd (x : UInt8) : Bool := x != 0x3f && x != 0x23

/-- path, query and fragment -/
def parseTail (rest : Bytes) : Tail :=
  let path := rest.takeWhile pathEnd
  match rest.drop path.length with
  | [] => { path := path }
  | x :: more =>
    if x == 0x3f then
      let q := more.takeWhile (· != 0x23)
      match more.drop q.length with
      | [] => { path := path, query := some q }
      | _ :: frag => { path := path, query := some q, fragment := some frag }
    else { path := path, fragment := some more }     -- '#'

/-- htp_parse_uri (input non-NULL; allocation succeeds) -/
def parseUri (input : Bytes) : UriRaw :=
  let data := stripTrailingSpaces input
  if data.length = 0 then {} else
  let (scheme, rest) := splitScheme data
  let (auth, rest) := splitAuthority scheme rest
  let a : Auth := match auth with | some t => parseAuthority t | none => {}
  let t := parseTail rest
  { scheme := scheme, username := a.username, password := a.password, hostname := a.hostname, port := a.port,
    path := some t.path, query := t.query, fragment := t.fragment }

/-- the delimiters-and-components re-join that C13 speaks about -/
def rejoin (u : UriRaw) : Bytes :=
  (match u.scheme with | some s => s ++ [0x3a] | none => []) ++
  (if u.hostname.isSome then [0x2f, 0x2f] else []) ++
  (match u.username with
   | some us => us ++ (match u.password with | some p => 0x3a :: p | none => []) ++ [0x40]
   | none => []) ++
  (u.hostname.getD []) ++
  (match u.port with | some p => 0x3a :: p | none => []) ++
  (u.path.getD []) ++
  (match u.query with | some q => 0x3f :: q | none => []) ++
  (match u.fragment with | some f => 0x23 :: f | none => [])

/-- result of htp_parse_hostport -/
structure HostPort where
  hostname : Option Bytes := none
  port : Option Bytes := none
  portNumber : Int := -1
  invalid : Bool := false
  deriving Repr, DecidableEq, Inhabited

/-- htp_parse_hostport -/
def parseHostport (hostport : Bytes) : HostPort :=
  let data := Bstr.memTrim hostport
  if data.length = 0 then { invalid := true } else
  match data with
  | 0x5b :: _ =>
    (match splitAt1 0x5d data with
     | none => { invalid := true }
     | some (pre, after) =>
       let host := pre ++ [0x5d]
       match after with
       | [] => { hostname := some host }
       | 0x3a :: port =>
         let (pn, inv) := Num.parsePort port
         { hostname := some host, port := some port, portNumber := pn, invalid := inv }
       | _ => { hostname := some host, invalid := true })
  | _ =>
    match splitAt1 0x3a data with
    | none => { hostname := some (Bstr.toLowercase data) }
    | some (h, port) =>
      let host := Bstr.dropWhileEnd cIsspace h
      let (pn, inv) := Num.parsePort port
      { hostname := some host, port := some port, portNumber := pn, invalid := inv }

/-! ### inet_pton(AF_INET6) as glibc ≥ 2.26 implements it (external; checked against libc by the
    correspondence slice `fn inet6`) -/

def hexDigitValue (c : UInt8) : Option Nat :=
  if 48 ≤ c.toNat ∧ c.toNat ≤ 57 then some (c.toNat - 48)
  else if 97 ≤ c.toNat ∧ c.toNat ≤ 102 then some (c.toNat - 87)
  else if 65 ≤ c.toNat ∧ c.toNat ≤ 70 then some (c.toNat - 55)
  else none

/-- inet_pton4 on the whole remaining text -/
def inetPton4Loop : Bytes → (cur : Nat) → (sawDigit : Bool) → (octets : Nat) → Bool
  | [], _, _, octets => octets ≥ 4
  | ch :: rest, cur, saw, octets =>
    if 48 ≤ ch.toNat ∧ ch.toNat ≤ 57 then
      let nw := cur * 10 + (ch.toNat - 48)
      if saw && cur == 0 then false
      else if nw > 255 then false
      else if !saw then (if octets + 1 > 4 then false else inetPton4Loop rest nw true (octets + 1))
      else inetPton4Loop rest nw true octets
    else if ch == 0x2e && saw then
      if octets == 4 then false else inetPton4Loop rest 0 false octets
    else false

def inetPton4 (s : Bytes) : Bool := inetPton4Loop s 0 false 0

/-- main loop of inet_pton6; `tp` counts bytes stored, `colon` = a "::" was seen -/
def inetPton6Loop : Bytes → (curtok : Bytes) → (xd : Nat) → (val : Nat) → (tp : Nat) → (colon : Bool) → Option (Nat × Nat × Bool)
  | [], _, xd, _, tp, colon => some (xd, tp, colon)
  | ch :: rest, curtok, xd, val, tp, colon =>
    match hexDigitValue ch with
    | some d =>
      if xd == 4 then none
      else
        let v := val * 16 + d
        if v > 0xffff then none else inetPton6Loop rest curtok (xd + 1) v tp colon
    | none =>
      if ch == 0x3a then
        if xd == 0 then (if colon then none else inetPton6Loop rest rest 0 val tp true)
        else if rest.isEmpty then none
        else if tp + 2 > 16 then none
        else inetPton6Loop rest rest 0 0 (tp + 2) colon
      else if ch == 0x2e && tp + 4 ≤ 16 && inetPton4 curtok then some (0, tp + 4, colon)
      else none

/-- 1 iff glibc's inet_pton(AF_INET6, s) accepts `s` (C string: stops at the first NUL) -/
def ipv6Valid (s0 : Bytes) : Bool :=
  let s := s0.takeWhile (· != 0)
  match s with
  | [] => false
  | _ =>
    let start : Option Bytes :=
      match s with
      | 0x3a :: rest => (match rest with | 0x3a :: _ => some rest | _ => none)
      | _ => some s
    match start with
    | none => false
    | some src =>
      match inetPton6Loop src src 0 0 0 false with
      | none => false
      | some (xd, tp, colon) =>
        let tp' := if xd > 0 then tp + 2 else tp
        if xd > 0 && tp + 2 > 16 then false
        else if colon then tp' != 16
        else tp' == 16

/-- label loop of htp_validate_hostname -/
def labelChar (c : UInt8) : Bool :=
  (97 ≤ c.toNat && c.toNat ≤ 122) || (65 ≤ c.toNat && c.toNat ≤ 90) || (48 ≤ c.toNat && c.toNat ≤ 57) ||
  c == 0x2d || c == 0x5f

def validateLabels : Nat → Bytes → Bool
  | 0, _ => true
  | fuel + 1, data =>
    match data with
    | [] => true
    | _ =>
      let label := data.takeWhile (· != 0x2e)
      if !label.all labelChar then false
      else if label.length = 0 || label.length > 63 then false
      else
        let rest := data.drop label.length
        match rest with
        | [] => true
        | _ =>
          let dots := rest.takeWhile (· == 0x2e)
          if dots.length != 1 then false else validateLabels fuel (rest.drop 1)

/-- htp_validate_hostname -/
def validateHostname (ipv6 : Bytes → Bool) (host : Bytes) : Bool :=
  if host.length = 0 || host.length > 255 then false
  else match host with
    | 0x5b :: _ =>
      if host.length < 2 || host.length - 2 ≥ INET6_ADDRSTRLEN' then false
      else if host.getLast? != some 0x5d then false      -- the literal must be closed by ']'
      else ipv6 ((host.drop 1).take (host.length - 2))
    | _ => validateLabels (host.length + 1) host

/-- htp_normalize_hostname_inplace -/
def normalizeHostname (h : Bytes) : Bytes := Bstr.dropWhileEnd (· == 0x2e) (Bstr.toLowercase h)

/-- the normalised URI (tx->parsed_uri) -/
structure UriNorm where
  scheme : Option Bytes := none
  username : Option Bytes := none
  password : Option Bytes := none
  hostname : Option Bytes := none
  portNumber : Int := -1
  path : Option Bytes := none
  query : Option Bytes := none
  fragment : Option Bytes := none
  deriving Repr, DecidableEq, Inhabited

/-- htp_normalize_parsed_uri; `cfg` is decoder_cfgs[HTP_DECODER_URL_PATH] -/
def normalizeParsedUri (cfg : DecoderCfg) (u : UriRaw) (flags : Nat) (status : Int) : UriNorm × Nat × Int :=
  let n : UriNorm := { scheme := u.scheme.map Bstr.toLowercase }
  let dec (b : Option Bytes) (flags : Nat) (status : Int) : Option Bytes × Nat × Int :=
    match b with
    | some x => let (o, f, s) := txUrldecodeUri cfg x flags status; (some o, f, s)
    | none => (none, flags, status)
  let (user, flags, status) := dec u.username flags status
  let (pass, flags, status) := dec u.password flags status
  let (host, flags, status) := dec u.hostname flags status
  let n := { n with username := user, password := pass, hostname := host.map normalizeHostname }
  let (pn, flags) : Int × Nat :=
    match u.port with
    | some p =>
      let v := Num.parsePositiveIntegerWhitespace p 10
      if v < 0 then (-1, setFlag flags HOSTU_INVALID)
      else if v > 0 ∧ v < 65536 then (v, flags)
      else (-1, setFlag flags HOSTU_INVALID)
    | none => (-1, flags)
  let n := { n with portNumber := pn }
  let (path, flags, status) : Option Bytes × Nat × Int :=
    match u.path with
    | some p => let (o, f, s) := pipeline cfg p flags status; (some o, f, s)
    | none => (none, flags, status)
  let (frag, flags, status) := dec u.fragment flags status
  ({ n with path := path, query := u.query, fragment := frag }, flags, status)

end Htp.Uri
