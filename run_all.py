#!/usr/bin/env python3
"""convenience: run every claimed check (quick by default) and print one line each"""
import json, subprocess, sys, time, os
tier = sys.argv[1] if len(sys.argv) > 1 else "quick"
seed = sys.argv[2] if len(sys.argv) > 2 else "1"
only = sys.argv[3].split(",") if len(sys.argv) > 3 else None
m = json.load(open(os.path.join(os.path.dirname(os.path.abspath(__file__)), "MANIFEST.json")))
bad = 0
for c in m["checks"]:
    if only and c["property_id"] not in only:
        continue
    cmd = c["quick_cmd"] if tier == "quick" else c["thorough_cmd"]
    t = time.time()
    r = subprocess.run(cmd, shell=True, cwd=os.path.dirname(os.path.abspath(__file__)), stdout=subprocess.PIPE, stderr=subprocess.STDOUT,
                       text=True, env=dict(os.environ, VERIF_SEED=seed))
    lines = [l for l in r.stdout.splitlines() if l.startswith(("OK", "VIOLATION", "KNOWN-FINDING"))]
    viol = [l for l in lines if l.startswith("VIOLATION")]
    kn = len([l for l in lines if l.startswith("KNOWN")])
    print("%s rc=%d %.0fs known=%d %s" % (c["property_id"], r.returncode, time.time() - t, kn, (viol[0][:150] if viol else (lines[-1][:110] if lines else r.stdout[-200:]))))
    bad += r.returncode != 0
sys.exit(1 if bad else 0)
