#!/bin/sh
# build every Props module (the default lake target does not import them) and the driver; prints errors only
cd "$(dirname "$0")/../lean" || exit 2
T=$(for i in 01 02 03 04 05 06 07 08 09 10 11 12 13 14 15 16 17 18 19; do printf "HtpModel.Props.C$i "; done)
lake build $T htpdrv 2>&1 | grep -A25 "✖\|error" | head -${1:-60}
