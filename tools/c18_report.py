#!/usr/bin/env python3
"""condensed sanitizer report for a C18 replay file"""
import json, os, subprocess, sys, re
sys.path.insert(0, os.path.join(os.path.dirname(os.path.dirname(os.path.abspath(__file__))), "checks"))
import lib
p = json.load(open(sys.argv[1]))
b = lib.build_af()
r = subprocess.run([b["afail"]], input="\n".join(p["script"]) + "\n", capture_output=True, text=True, env=dict(os.environ, ASAN_OPTIONS="detect_leaks=1"))
s = r.stderr
print(p.get("what"))
runs = re.findall(r"^RUN (\d+) (\d+)$", s, re.M)
print("last run:", runs[-1] if runs else None, "rc", r.returncode)
cands = [m.start() for m in re.finditer(r"ERROR: AddressSanitizer", s)] + [m.start() for m in re.finditer(r"runtime error: (?!applying zero offset)", s)]
i = min(cands) if cands else s.rfind("ERROR: ")
print("tail:", s[-300:].replace("\n", " | "))
out = []
for line in s[i:].splitlines():
    if line.startswith("    #"):
        m = re.match(r"\s+#(\d+) \S+ in (\S+) (\S+)", line)
        if m and int(m.group(1)) < 6:
            out.append("   #%s %s %s" % (m.group(1), m.group(2), m.group(3).replace("/repo/htp/", "")))
    elif line.strip() and not line.startswith(("  0x", "=>", "Shadow", "  ")):
        out.append(line[:160])
    if line.startswith("SUMMARY"):
        break
print("\n".join(out[:40]))
