#!/usr/bin/env python3
"""Offline tool: choose sweep scenarios for C18 from the distilled coverage corpus so that every allocation call site the corpus
reaches is reached by at least one selected scenario (greedy set cover, smallest allocation counts first). Writes
corpus/C18/site_scenarios.json = [[cfg, policy, items, name], ...]. The registered check only reads that file."""
import json, os, sys
ROOT = os.path.dirname(os.path.dirname(os.path.abspath(__file__)))
sys.path.insert(0, os.path.join(ROOT, "checks"))
import lib, c18
af = lib.build_af()["afail"]
cands = []
for l in open(os.path.join(ROOT, "corpus", "fuzz", "conn.jsonl")):
    sc = json.loads(l)
    play = [x for x in sc if x.startswith("conn play ")]
    if not play:
        continue
    cfg, pol = sc[0].split(" ")[2:4]
    items = play[0].split(" ", 2)[2]
    if len(items) > 6000:
        continue
    cands.append((cfg.replace("respdecomp=0,", "").replace("respdecomp=0", "-") or "-", "reg" if "reg" in pol else "-", items))
print("candidates:", len(cands))
outs, err, rc = c18.run_afail(af, ["T %s %s %s" % c for c in cands])
assert len(outs) == len(cands), (len(outs), len(cands), err[-500:])
info = []
for c, o in zip(cands, outs):
    n = int(o.split(" ")[0][2:]); st = o.split("sites=")[1]
    info.append((n, set(st.split(",")) if st else set(), c))
allsites = set().union(*[i[1] for i in info])
print("distinct allocation sites reached by the corpus:", len(allsites))
chosen, covered = [], set()
pool = [i for i in info if i[0] <= 400]
while True:
    best = max(pool, key=lambda i: (len(i[1] - covered), -i[0]), default=None)
    if best is None or not (best[1] - covered):
        break
    covered |= best[1]; chosen.append(best)
print("chosen:", len(chosen), "covering", len(covered), "of", len(allsites), "allocations to sweep:", sum(i[0] for i in chosen))
os.makedirs(os.path.join(ROOT, "corpus", "C18"), exist_ok=True)
json.dump([[c[0], c[1], c[2], "site-%d" % k] for k, (n, st, c) in enumerate(chosen)], open(os.path.join(ROOT, "corpus", "C18", "site_scenarios.json"), "w"), indent=0)
