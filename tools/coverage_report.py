#!/usr/bin/env python3
"""Offline measurement (not a registered check): which lines of /repo/htp the inputs of the registered checks execute.

Builds the library + harness with clang source-based coverage under /tmp/covbuild, runs every check's quick tier with the harness
binaries replaced by the instrumented ones (VERIF_CORR_OVERRIDE / VERIF_AF_OVERRIDE, honoured by checks/lib.py), merges the profiles
and writes /verif/coverage.md: per source file, lines executed / lines instrumented, and the functions never entered.
The numbers say how far the tie between model and code reaches; they decide nothing."""
import glob, json, os, shutil, subprocess, sys
ROOT = os.path.dirname(os.path.dirname(os.path.abspath(__file__)))
sys.path.insert(0, os.path.join(ROOT, "checks"))
import lib
B = "/tmp/covbuild"


def main():
    shutil.rmtree(B, ignore_errors=True); os.makedirs(B + "/prof")
    srcs, _ = lib.repo_sources()
    cf = lib.CFLAGS_COMMON + ["-O0", "-g", "-fprofile-instr-generate", "-fcoverage-mapping"]
    objs, err = lib._compile_many("clang", cf, srcs, B)
    assert not err, err
    hs = glob.glob(os.path.join(lib.HARNESS, "*.c"))
    hobjs, err = lib._compile_many("clang", lib.CFLAGS_COMMON + ["-O0", "-g", "-I" + lib.HARNESS], hs, B)
    assert not err, err
    r = lib.run(["clang", "-fprofile-instr-generate"] + objs + hobjs + ["-lz", "-lpthread", "-o", B + "/corr"])
    assert r.returncode == 0, r.stderr[-2000:]
    # allocation-failure harness: library with renamed allocator calls
    os.makedirs(B + "/af")
    aobjs, err = lib._compile_many("clang", cf + lib.ALLOC_MACROS, srcs, B + "/af")
    assert not err, err
    afs = [os.path.join(lib.HARNESS, "af", "afail.c"), os.path.join(lib.HARNESS, "h_cfg.c")]
    ahobjs, err = lib._compile_many("clang", lib.CFLAGS_COMMON + ["-O0", "-g", "-fsanitize=address", "-I" + lib.HARNESS], afs, B + "/af")
    assert not err, err
    r = lib.run(["clang", "-fprofile-instr-generate", "-fsanitize=address"] + aobjs + ahobjs + ["-lz", "-lpthread", "-o", B + "/afail"])
    assert r.returncode == 0, r.stderr[-2000:]
    env = dict(os.environ, VERIF_CORR_OVERRIDE=B + "/corr", VERIF_AF_OVERRIDE=B + "/afail", LLVM_PROFILE_FILE=B + "/prof/%p-%m.profraw", VERIF_SEED="1")
    man = json.load(open(os.path.join(ROOT, "MANIFEST.json")))
    for c in man["checks"]:
        p = subprocess.run(c["quick_cmd"], shell=True, cwd=ROOT, env=env, capture_output=True, text=True)
        print(c["property_id"], p.returncode, (p.stdout.strip().splitlines() or [""])[-1][:120], flush=True)
    raws = glob.glob(B + "/prof/*.profraw")
    subprocess.run(["llvm-profdata", "merge", "-sparse", "-o", B + "/all.profdata"] + raws, check=True)
    rep = subprocess.run(["llvm-cov", "export", "-summary-only", "-instr-profile=" + B + "/all.profdata", B + "/corr", "-object", B + "/afail"],
                         capture_output=True, text=True, check=True)
    data = json.loads(rep.stdout)["data"][0]
    rows = []
    for f in data["files"]:
        fn = f["filename"]
        if "/repo/htp/" not in fn or "/lzma/" in fn:
            continue
        s = f["summary"]
        rows.append((os.path.relpath(fn, "/repo"), s["lines"]["covered"], s["lines"]["count"], s["functions"]["covered"], s["functions"]["count"],
                     s["branches"]["covered"], s["branches"]["count"]))
    rows.sort()
    fr = subprocess.run(["llvm-cov", "report", "-show-functions", "-instr-profile=" + B + "/all.profdata", B + "/corr", "-object", B + "/afail"] + [r_[0].join(["/repo/", ""]) for r_ in rows],
                        capture_output=True, text=True)
    never = []
    for l in fr.stdout.splitlines():
        t = l.split()
        if len(t) >= 7 and t[1].isdigit() and t[1] != "0" and t[2] == t[1] and not l.startswith(("TOTAL", "File", "Name")):
            never.append(t[0])
    tl = sum(r_[2] for r_ in rows); cl_ = sum(r_[1] for r_ in rows)
    out = ["# Lines of /repo/htp executed by the inputs of the registered checks (quick tier, VERIF_SEED=1)", "",
           "Measured offline by `tools/coverage_report.py` (clang source-based coverage, -O0; LZMA sources excluded). The figures describe the",
           "reach of the correspondence inputs; they decide nothing. Total: %d of %d lines (%.1f%%)." % (cl_, tl, 100.0 * cl_ / max(tl, 1)), "",
           "| file | lines | functions | branches |", "|---|---|---|---|"]
    for f, lc, ln, fc, fn_, bc, bn in rows:
        out.append("| %s | %d / %d (%.0f%%) | %d / %d | %d / %d |" % (f, lc, ln, 100.0 * lc / max(ln, 1), fc, fn_, bc, bn))
    out += ["", "Functions never entered: " + (", ".join(sorted(set(never))) or "none"), ""]
    # lines never executed, as ranges, for the parser sources (read them to see which behaviours no input reaches)
    unc = []
    for f, lc, ln, *_ in rows:
        if ln == 0 or lc == ln or not f.endswith(".c"):
            continue
        sh = subprocess.run(["llvm-cov", "show", "-instr-profile=" + B + "/all.profdata", B + "/corr", "-object", B + "/afail", "/repo/" + f],
                            capture_output=True, text=True).stdout
        zero = []
        for l in sh.splitlines():
            t = l.split("|")
            if len(t) >= 3 and t[0].strip().isdigit() and t[1].strip() == "0":
                zero.append(int(t[0]))
        rng, st, pv = [], None, None
        for z in sorted(set(zero)):
            if st is None:
                st = pv = z
            elif z == pv + 1:
                pv = z
            else:
                rng.append((st, pv)); st = pv = z
        if st is not None:
            rng.append((st, pv))
        unc.append("%s: %s" % (f, " ".join("%d-%d" % r_ if r_[0] != r_[1] else str(r_[0]) for r_ in rng)))
    out += ["", "Lines never executed (ranges):", ""] + ["* " + u for u in unc] + [""]
    open(os.path.join(ROOT, "coverage.md"), "w").write("\n".join(out))
    print("\n".join(out[:8]))
    shutil.rmtree(B, ignore_errors=True)


if __name__ == "__main__":
    main()
