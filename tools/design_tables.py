#!/usr/bin/env python3
"""Regenerate the machine-derived tables of DESIGN.md (between the AUTOGEN markers) from claims.json, the Lean sources,
known_findings.json and seeded/*/meta.json, so that the document cannot drift from what is committed."""
import glob
import json
import os
import re

ROOT = os.path.dirname(os.path.dirname(os.path.abspath(__file__)))


def theorems_of(prop):
    p = os.path.join(ROOT, "lean", "HtpModel", "Props", prop + ".lean")
    if not os.path.exists(p):
        return []
    src = open(p).read()
    return re.findall(r"^theorem\s+([A-Za-z0-9_'.]+)", src, re.M)


def main():
    claims = json.load(open(os.path.join(ROOT, "claims.json")))["checks"]
    kf = json.load(open(os.path.join(ROOT, "known_findings.json")))
    props = [json.loads(l) for l in open(os.path.join(ROOT, "properties.jsonl"))]
    out = []
    out.append("### A. Claimed properties, theorems and deciding technique (from claims.json and lean/HtpModel/Props)\n")
    out.append("| id | theorems in `Props/<id>.lean` | technique |")
    out.append("|---|---|---|")
    for p in props:
        i = p["id"]
        if i in claims:
            th = theorems_of(i)
            out.append("| %s | %s | %s |" % (i, ", ".join("`%s`" % t for t in th) or "-", claims[i]["technique"]))
        else:
            out.append("| %s | (not claimed, see not_applicable) | - |" % i)
    out.append("")
    out.append("### B. Known findings (genuine defects recorded, not repaired) - known_findings.json\n")
    out.append("| property | signature | what fails | witness |")
    out.append("|---|---|---|---|")
    for f in kf["findings"]:
        w = f.get("witness") or f.get("replay") or f.get("input") or ""
        if isinstance(w, (list, dict)):
            w = json.dumps(w)
        out.append("| %s | %s | %s | %s |" % (f["property"], f["signature"], f["what_fails"].replace("|", "\\|")[:420], str(w).replace("|", "\\|")[:160]))
    out.append("")
    out.append("### C. Genuine defects repaired in /repo (`fix:` commits) - known_findings.json `fixed`\n")
    for l in kf["fixed"]:
        out.append("* " + l)
    out.append("")
    out.append("### D. Seeded changes (sub-agents, confirmed) and which registered checks report them (quick tier, VERIF_SEED=1)\n")
    out.append("| seeded change | property | what was changed | caught by (VIOLATION) | of which without a failing input |")
    out.append("|---|---|---|---|---|")
    for mp in sorted(glob.glob(os.path.join(ROOT, "seeded", "*", "meta.json"))):
        m = json.load(open(mp))
        det = m.get("detected_by", {})
        caught = sorted(k.split("/")[0] for k, v in det.items() if v.get("rc") not in (0, None) and v.get("violations"))
        nofail = sorted(k.split("/")[0] for k, v in det.items() if v.get("violations") and all("no-failing-input-found" in x for x in v["violations"]))
        out.append("| %s | %s | %s: %s | %s | %s |" % (m["id"], m["property"], m["where"], m["change"].replace("|", "\\|")[:260],
                                                    ", ".join(caught) or "**none**", ", ".join(nofail) or "-"))
    out.append("")
    text = "\n".join(out)
    dp = os.path.join(ROOT, "DESIGN.md")
    s = open(dp).read()
    a, b = "<!-- AUTOGEN-BEGIN -->", "<!-- AUTOGEN-END -->"
    if a in s and b in s:
        s = s[:s.index(a) + len(a)] + "\n" + text + "\n" + s[s.index(b):]
        open(dp, "w").write(s)
        print("DESIGN.md tables regenerated (%d lines)" % len(out))
    else:
        print(text)


main()
