#!/usr/bin/env python3
"""Offline tool (not a registered check): coverage-guided search for connection-level inputs, distilled into a deterministic corpus.

  fuzz_distill.py build            compile /repo's current tree + harness/fuzz/fuzz_conn.c with libFuzzer (ASan) under /tmp/fzbuild
  fuzz_distill.py seed             write seed inputs (test/files/*.t with every configuration index, plus generated exchanges)
  fuzz_distill.py run <seconds>    run the fuzzer (fork mode, 14 jobs)
  fuzz_distill.py distill [max]    merge-minimise the corpus and write /verif/corpus/fuzz/conn.jsonl (one script per line)

Everything lives under /tmp/fz* (scratch; removed by `clean`). The registered checks only read corpus/fuzz/conn.jsonl.
"""
import glob, json, os, random, shutil, subprocess, sys
ROOT = os.path.dirname(os.path.dirname(os.path.abspath(__file__)))
sys.path.insert(0, os.path.join(ROOT, "checks")); sys.path.insert(0, os.path.join(ROOT, "gen"))
import lib, traffic
TARGET = os.environ.get("FUZZ_TARGET", "conn")      # conn | fn
B = "/tmp/fzbuild_" + TARGET; C = "/tmp/fzcorpus_" + TARGET; M = "/tmp/fzmerged_" + TARGET; CR = "/tmp/fzcrash_" + TARGET


def build():
    shutil.rmtree(B, ignore_errors=True); os.makedirs(B)
    srcs, _ = lib.repo_sources()
    cf = lib.CFLAGS_COMMON + ["-O1", "-g", "-fno-omit-frame-pointer"]
    objs, err = lib._compile_many("clang", cf + ["-fsanitize=fuzzer-no-link,address"], srcs, B)
    assert not err, err
    hs = [s for s in glob.glob(os.path.join(lib.HARNESS, "*.c"))]
    hobjs, err = lib._compile_many("clang", cf + ["-fsanitize=address", "-I" + lib.HARNESS, "-Dmain=corr_main",
                                                  "-D__sanitizer_cov_trace_pc_guard=unused_guard", "-D__sanitizer_cov_trace_pc_guard_init=unused_guard_init"], hs, B)
    assert not err, err
    fz = os.path.join(lib.HARNESS, "fuzz", "fuzz_%s.c" % ("conn" if TARGET == "connz" else TARGET))
    zdef = ["-DFUZZ_Z"] if TARGET == "connz" else []
    r = lib.run(["clang"] + cf + zdef + ["-fsanitize=fuzzer,address", "-I" + lib.HARNESS, fz] + objs + hobjs + ["-lz", "-lpthread", "-o", B + "/fuzz"])
    assert r.returncode == 0, r.stderr[-3000:]
    r = lib.run(["clang", "-O1", "-DFUZZ_DUMP", "-w"] + zdef + lib.CFLAGS_COMMON + ["-I" + lib.HARNESS, fz, "-o", B + "/dump"])
    assert r.returncode == 0, r.stderr[-3000:]
    print("built", B)


def seed_fn():
    os.makedirs(C, exist_ok=True)
    sys.path.insert(0, os.path.join(ROOT, "checks"))
    import c12
    rng = random.Random(9)
    toks = c12.escape_tokens()
    n = 0
    for sel in range(14):
        for i in range(25):
            if sel in (0, 1):
                body = b"B\n--B\r\nContent-Disposition: form-data; name=\"a\"\r\n\r\nv\r\n--B\r\nContent-Disposition: form-data; name=\"f\"; filename=\"x.txt\"\r\nContent-Type: text/plain\r\n\r\nfile\r\n--B--\r\n"
                if i % 3 == 1:
                    k = rng.randint(3, len(body) - 1); body = body[:k] + b"\xfe\xfe" + body[k:]
                if i % 5 == 4:
                    body = b"\"b q\"\n--b q\r\nX: y\r\n z\r\n\r\ndata\r\n--b q--"
            elif sel in (2, 9):
                body = b"&".join(rng.choice(toks) + b"=" + rng.choice(toks) for _ in range(rng.randint(1, 3)))
            elif sel in (3, 8):
                body = rng.choice((b"http://u:p@host.example:80/a/b?q=1#f", b"/a/../b", b"//h/p", b"h:1", b"http://[::1]:8/", b"a://b@c")) + rng.choice(toks)
            elif sel in (4, 5):
                body = rng.choice((b"host.example:80", b"[::1]:443", b"a..b", b" h :8 ", b"[1:2", b"h:65536"))
            elif sel == 12:
                body = rng.choice((b"::1", b"1:2:3:4:5:6:7:8", b"::ffff:1.2.3.4", b"1::2::3"))
            else:
                body = b"/" + b"".join(rng.choice(toks) for _ in range(rng.randint(1, 4)))
            open(os.path.join(C, "s_%d_%d" % (sel, i)), "wb").write(bytes([sel, rng.randrange(16)]) + body); n += 1
    open(B + "/dict", "w").write("\n".join('"%s"' % x for x in (
        "\\xfe\\xfe", "\\x0d\\x0a", "\\x0d\\x0a\\x0d\\x0a", "--", "Content-Disposition: form-data; name=\\\"", "; filename=\\\"", "Content-Type: ", "%u0041", "%u002f",
        "%2f", "%5c", "%00", "%2e", "%c0%af", "%uff0f", "/../", "/./", "://", "@", "[::1]", ":80", "?", "#", "&", "=", "+", "%25", "\\\\")) + "\n")
    print("seeds:", n)


def seed_connz():
    import zlib, lzma
    os.makedirs(C, exist_ok=True)
    rng = random.Random(11)
    n = 0
    req = b">>>\nGET /z HTTP/1.1\r\nHost: h\r\n\r\n\n"
    def gz(d):
        c = zlib.compressobj(6, zlib.DEFLATED, 31); return c.compress(d) + c.flush()
    def raw(d):
        c = zlib.compressobj(6, zlib.DEFLATED, -15); return c.compress(d) + c.flush()
    pls = [b"", b"a", b"hello world " * 20, bytes(rng.randrange(256) for _ in range(200)), b"\x00" * 30000]
    encs = [(b"gzip", gz), (b"deflate", raw), (b"deflate", zlib.compress), (b"x-gzip", gz), (b"lzma", lambda d: lzma.compress(d, format=lzma.FORMAT_ALONE, preset=0)),
            (b"gzip, deflate", lambda d: raw(gz(d))), (b"gzip,gzip", lambda d: gz(gz(d))), (b"gzip", lambda d: b"\x1f\x8b\x08\x08\x00\x00\x00\x00\x00\x03nm\x00" + raw(d))]
    for ci in range(10):
        for ce, f in encs:
            for pl in pls:
                body = f(pl)
                if len(body) > 2500:
                    continue
                for fr in ("cl", "chunked"):
                    if fr == "cl":
                        res = b"HTTP/1.1 200 OK\r\nContent-Encoding: " + ce + b"\r\nContent-Length: %d\r\n\r\n" % len(body) + body
                    else:
                        res = b"HTTP/1.1 200 OK\r\nContent-Encoding: " + ce + b"\r\nTransfer-Encoding: chunked\r\n\r\n%x\r\n" % len(body) + body + b"\r\n0\r\n\r\n"
                    k = rng.randint(1, len(res) - 1)
                    data = req + b"<<<\n" + res[:k] + b"\n<<<\n" + res[k:] + b"\n"
                    if n % 7 == ci % 7:
                        open(os.path.join(C, "z_%d" % n), "wb").write(bytes([ci, 0, 0]) + data)
                    n += 1
    open(B + "/dict", "w").write("\n".join('"%s"' % x for x in (
        "\\x0a>>>\\x0a", "\\x0a<<<\\x0a", "\\x0a===\\x0a", "Content-Encoding: ", "gzip", "deflate", "lzma", "x-gzip", "x-deflate", ", ", "\\x1f\\x8b\\x08", "\\x78\\x9c", "\\x5d\\x00\\x00",
        "Transfer-Encoding: chunked", "Content-Length: ", "\\x0d\\x0a\\x0d\\x0a", "HTTP/1.1 200 OK\\x0d\\x0a", "0\\x0d\\x0a\\x0d\\x0a")) + "\n")
    print("seeds:", len(os.listdir(C)))


def seed():
    if TARGET == "fn":
        return seed_fn()
    if TARGET == "connz":
        return seed_connz()
    os.makedirs(C, exist_ok=True)
    n = 0
    rng = random.Random(7)
    for f in sorted(glob.glob("/repo/test/files/*.t")):
        d = open(f, "rb").read()
        if len(d) > 6000:
            continue
        for c in (0, 1, 10, 11):
            open(os.path.join(C, "t_%s_%d" % (os.path.basename(f), c)), "wb").write(bytes([c, 0, 0]) + d); n += 1
    for i in range(400):
        reqs, ress, rq, rs = traffic.gen_exchange(rng, opts=None) if False else traffic.gen_exchange(rng)
        body = b""
        for a, b in zip(rq, rs):
            body += b">>>\n" + a + b"\n<<<\n" + b + b"\n"
        open(os.path.join(C, "g_%d" % i), "wb").write(bytes([rng.randrange(20), rng.choice((0, 0, 200)), rng.randrange(48)]) + body); n += 1
    open(B + "/dict", "w").write("\n".join('"%s"' % x for x in (
        "\\x0a>>>\\x0a", "\\x0a<<<\\x0a", "\\x0a===\\x0a", "HTTP/1.1", "HTTP/1.0", "HTTP/0.9", "GET ", "POST ", "CONNECT ", "HEAD ", "PUT ", "\\x0d\\x0a", "\\x0d\\x0a\\x0d\\x0a",
        "Content-Length: ", "Transfer-Encoding: chunked", "Host: ", "Expect: 100-continue", "Connection: ", "Upgrade: ", "Cookie: ", "Authorization: Basic ",
        "Authorization: Digest username=\\\"", "Content-Type: application/x-www-form-urlencoded", "Content-Type: multipart/form-data; boundary=", "--B", "--B--",
        "Content-Disposition: form-data; name=\\\"", "; filename=\\\"", " 100 Continue", " 101 Switching", " 200 OK", " 204 ", " 304 ", " 407 ", "0\\x0d\\x0a\\x0d\\x0a",
        "http://", "%u0041", "%2f", "%00", "?a=b&c=d", ":80", "[::1]", "\\x09", " \\x0d\\x0a ", "1\\x0d\\x0aa\\x0d\\x0a", "Content-Encoding: gzip", "Proxy-Authorization: ")) + "\n")
    print("seeds:", n)


def run(seconds):
    os.makedirs(CR, exist_ok=True)
    cmd = [B + "/fuzz", "-fork=14", "-max_len=%d" % (400 if TARGET == "fn" else 3000), "-timeout=10", "-rss_limit_mb=3000", "-max_total_time=%d" % seconds, "-dict=" + B + "/dict",
           "-artifact_prefix=" + CR + "/", "-ignore_crashes=1", "-ignore_timeouts=1", "-ignore_ooms=1", "-print_final_stats=1", C]
    env = dict(os.environ, ASAN_OPTIONS="detect_leaks=1:abort_on_error=0:allocator_may_return_null=1")
    subprocess.run(cmd, env=env, stdout=open("/tmp/fzrun_%s.log" % TARGET, "a"), stderr=subprocess.STDOUT)
    print(subprocess.run("tail -5 /tmp/fzrun_%s.log;" % TARGET + " ls %s | wc -l; ls %s | wc -l" % (C, CR), shell=True, capture_output=True, text=True).stdout)


def distill(maxn=None):
    shutil.rmtree(M, ignore_errors=True); os.makedirs(M)
    subprocess.run([B + "/fuzz", "-merge=1", "-max_len=%d" % (400 if TARGET == "fn" else 3000), "-timeout=10", M, C], stdout=open("/tmp/fzmerge.log", "w"), stderr=subprocess.STDOUT)
    files = sorted(glob.glob(M + "/*"), key=lambda p: (os.path.getsize(p), p))
    if maxn:
        files = files[:maxn]
    out = os.path.join(ROOT, "corpus", "fuzz"); os.makedirs(out, exist_ok=True)
    lines = []
    for i in range(0, len(files), 500):
        r = subprocess.run([B + "/dump"] + files[i:i + 500], capture_output=True, text=True)
        lines += [l for l in r.stdout.splitlines() if l.strip()]
    seen, keep = set(), []
    for l in lines:
        if l not in seen:
            seen.add(l); json.loads(l); keep.append(l)
    open(os.path.join(out, TARGET + ".jsonl"), "w").write("\n".join(keep) + "\n")
    print("merged files:", len(files), "scripts:", len(keep), "bytes:", os.path.getsize(os.path.join(out, TARGET + ".jsonl")))


if __name__ == "__main__":
    a = sys.argv[1]
    if a == "build": build()
    elif a == "seed": seed()
    elif a == "run": run(int(sys.argv[2]))
    elif a == "distill": distill(int(sys.argv[2]) if len(sys.argv) > 2 else None)
    elif a == "clean":
        for d in (B, C, M, CR): shutil.rmtree(d, ignore_errors=True)
