#!/bin/sh
# create a scratch worktree of /repo (outside /repo and /verif) with the in-tree build configuration copied in,
# for a seeded-mutation sub-agent.  usage: mkseed.sh <name>   -> /tmp/seed_<name>
set -e
d=/tmp/seed_$1
git -C /repo worktree add -q --detach "$d" HEAD
rsync -a --ignore-existing --exclude .git /repo/ "$d"/
echo "$d"
