#!/usr/bin/env python3
"""Offline measurement (not a registered check): a small mutation campaign. Random single-token mutants of the parser sources are
first filtered by the repository's own suite in scratch worktrees (a mutant that fails any of the 341 tests is dropped - it is not a
'change that passes the existing tests'); each survivor is then applied to /repo, every registered check's quick tier is run, and the
patch is undone. Writes mutcamp.md. usage: mutcamp.py <seed> <candidates> <max_survivors>"""
import json, os, random, re, subprocess, sys, time
from concurrent.futures import ThreadPoolExecutor
ROOT = os.path.dirname(os.path.dirname(os.path.abspath(__file__)))
seed, ncand, maxsurv = int(sys.argv[1]), int(sys.argv[2]), int(sys.argv[3])
rng = random.Random(seed)
FILES = ["htp_request.c", "htp_response.c", "htp_transaction.c", "htp_util.c", "htp_multipart.c", "htp_urlencoded.c", "htp_decompressors.c",
         "bstr.c", "htp_request_generic.c", "htp_response_generic.c", "htp_parsers.c", "htp_cookies.c", "htp_table.c", "htp_list.c",
         "htp_connection_parser.c", "htp_content_handlers.c"]
OPS = [(r"<=", "<"), (r">=", ">"), (r"(?<![<>=!-])<(?![<=])", "<="), (r"(?<![<>=!-])>(?![>=])", ">="), (r"==", "!="), (r"!=", "=="), (r"&&", "||"), (r"\|\|", "&&"),
       (r"\+ 1\b", "+ 2"), (r"- 1\b", "- 0"), (r"\+\+", "--")]
cands = []
for f in FILES:
    lines = open("/repo/htp/" + f).read().split("\n")
    for i, l in enumerate(lines):
        t = l.strip()
        if not (t.startswith(("if (", "} else if (", "while (", "for (")) or "return " in t and ("<" in t or ">" in t or "==" in t)):
            continue
        if "htp_log" in t or "NULL" in t and "==" in t:      # allocation-failure tests are C18's sweep, not this campaign
            continue
        for pat, rep in OPS:
            for m in re.finditer(pat, l):
                cands.append((f, i, m.start(), m.end(), rep))
rng.shuffle(cands)
cands = cands[:ncand]

def make_patch(c, k):
    f, i, a, b, rep = c
    lines = open("/repo/htp/" + f).read().split("\n")
    old = lines[i]
    lines[i] = old[:a] + rep + old[b:]
    wt = "/tmp/mutwt_%d" % k
    return wt, f, i, old, lines[i], "\n".join(lines)

def try_mutant(args):
    k, c = args
    slot = k % 4
    wt = "/tmp/mutwt_%d" % slot
    f, i, a, b, rep = c
    src = open("/repo/htp/" + f).read().split("\n")
    old = src[i]; src[i] = old[:a] + rep + old[b:]
    return (k, c, old, src[i])

os.makedirs("/tmp/mut_patches", exist_ok=True)
# worktrees
for s in range(4):
    wt = "/tmp/mutwt_%d" % s
    if not os.path.exists(wt):
        subprocess.run(["git", "-C", "/repo", "worktree", "add", "-q", "--detach", wt, "HEAD"], check=True)
        subprocess.run("rsync -a --ignore-existing --exclude .git /repo/ %s/" % wt, shell=True, check=True)

def suite(slot_cands):
    slot, items = slot_cands
    wt = "/tmp/mutwt_%d" % slot
    out = []
    for k, c in items:
        f, i, a, b, rep = c
        subprocess.run(["git", "-C", wt, "checkout", "-q", "--", "htp"])
        p = wt + "/htp/" + f
        lines = open(p).read().split("\n")
        old = lines[i]; lines[i] = old[:a] + rep + old[b:]
        open(p, "w").write("\n".join(lines))
        r = subprocess.run("make -j4 check", shell=True, cwd=wt, capture_output=True, text=True)
        log = open(wt + "/test/test_all.log").read() if os.path.exists(wt + "/test/test_all.log") else ""
        ok = r.returncode == 0 and "PASSED  ] 341 tests" in log and "warning:" not in r.stdout + r.stderr
        if ok:
            d = subprocess.run(["git", "-C", wt, "diff"], capture_output=True, text=True).stdout
            open("/tmp/mut_patches/m%03d.diff" % k, "w").write(d)
        out.append((k, f, i + 1, old.strip(), lines[i].strip(), ok))
        os.path.exists(wt + "/test/test_all.log") and os.remove(wt + "/test/test_all.log")
    subprocess.run(["git", "-C", wt, "checkout", "-q", "--", "htp"])
    return out

slots = [(s, [(k, c) for k, c in enumerate(cands) if k % 4 == s]) for s in range(4)]
with ThreadPoolExecutor(4) as ex:
    res = sum(ex.map(suite, slots), [])
res.sort()
for s in range(4):
    subprocess.run(["git", "-C", "/repo", "worktree", "remove", "--force", "/tmp/mutwt_%d" % s])
surv = [r for r in res if r[5]][:maxsurv]
print("candidates %d, pass the suite %d, taken %d" % (len(res), sum(1 for r in res if r[5]), len(surv)), flush=True)
man = json.load(open(os.path.join(ROOT, "MANIFEST.json")))
rows = []
for k, f, ln, old, new, _ in surv:
    assert subprocess.run(["git", "-C", "/repo", "status", "--porcelain", "--untracked-files=no"], capture_output=True, text=True).stdout.strip() == ""
    subprocess.run(["git", "-C", "/repo", "apply", "/tmp/mut_patches/m%03d.diff" % k], check=True)
    hits = []
    try:
        def one(c):
            p = subprocess.run(c["quick_cmd"], shell=True, cwd=ROOT, capture_output=True, text=True, env=dict(os.environ, VERIF_SEED="1"))
            v = [l for l in p.stdout.splitlines() if l.startswith("VIOLATION")]
            return (c["property_id"], p.returncode, ("input" if any("no-failing-input-found" not in l for l in v) else "no-input") if v else "")
        with ThreadPoolExecutor(6) as ex:
            outs = list(ex.map(one, man["checks"]))
        hits = [(i, how) for i, rc, how in outs if rc != 0]
    finally:
        subprocess.run(["git", "-C", "/repo", "checkout", "--", "."])
    rows.append((k, f, ln, old, new, hits))
    print(k, f, ln, "->", hits, flush=True)
md = ["# Mutation campaign (tools/mutcamp.py seed=%d): single-token mutants that pass the 341 tests, against every check's quick tier" % seed, "",
      "Measured offline; decides nothing. %d candidates, %d pass the repository's suite, %d taken; reported by at least one check: %d." % (
          len(res), sum(1 for r in res if r[5]), len(surv), sum(1 for r in rows if r[5])), "",
      "| file:line | original | mutant | reported by |", "|---|---|---|---|"]
for k, f, ln, old, new, hits in rows:
    md.append("| %s:%d | `%s` | `%s` | %s |" % (f, ln, old[:90].replace("|", "\\|"), new[:90].replace("|", "\\|"),
                                                ", ".join("%s(%s)" % h for h in hits) or "**none**"))
open(os.path.join(ROOT, "mutcamp.md"), "w").write("\n".join(md) + "\n")
