#!/bin/sh
# remove a seeded-mutation scratch worktree together with its build output
for n in "$@"; do
  d=/tmp/seed_$n
  rm -rf "$d"/* 2>/dev/null
  git -C /repo worktree remove --force "$d" 2>/dev/null || rm -rf "$d"
  git -C /repo worktree prune
done
