#!/bin/sh
# confirm a seeded change in its scratch worktree: patch applied, suite passes, demo separates the trees
# usage: seed_confirm.sh <tag>
t=$1; wt=/tmp/seed_$t; out=/tmp/seedout_$t
cd $wt || exit 2
git checkout -q -- htp 2>/dev/null
git apply $out/patch.diff || { echo "PATCH-DOES-NOT-APPLY"; exit 2; }
make -j16 check >/tmp/seedconf_$t.log 2>&1
if grep -q "PASSED  \] 341 tests" test/test_all.log && grep -q "^PASS test_all" test/test_all.log; then echo "TESTS: 341 pass with the change"; else echo "TESTS: FAIL"; tail -5 test/test_all.log; fi
grep -c "warning:" /tmp/seedconf_$t.log | sed 's/^/warnings in build log: /'
echo "--- demo on the changed tree"
(cd $out && timeout 600 bash ./run_demo.sh 2>&1 | grep -E "PROPERTY (VIOLATED|HOLDS)" | head -3)
git checkout -q -- htp
make -j16 -C htp >/dev/null 2>&1
echo "--- demo on the unchanged tree"
(cd $out && timeout 600 bash ./run_demo.sh 2>&1 | grep -E "PROPERTY (VIOLATED|HOLDS)" | head -3)
git apply $out/patch.diff
rm -f /tmp/seedconf_$t.log
