#!/usr/bin/env python3
"""run the registered checks against a seeded change: apply /verif/seeded/<tag>/patch.diff to /repo, run, undo.
usage: seed_eval.py <tag> [tier] [ids...]   -> prints one line per check and updates seeded/<tag>/meta.json"""
import json, os, subprocess, sys, time
ROOT = os.path.dirname(os.path.dirname(os.path.abspath(__file__)))
tag = sys.argv[1]; tier = sys.argv[2] if len(sys.argv) > 2 else "quick"
ids = sys.argv[3:]
d = os.path.join(ROOT, "seeded", tag)
patch = os.path.join(d, "patch.diff")
meta_p = os.path.join(d, "meta.json")
meta = json.load(open(meta_p)) if os.path.exists(meta_p) else {}
if meta.get("obsolete") and not os.environ.get("SEED_FORCE"):
    print("%s: obsolete seed, skipped (%s)" % (tag, meta["obsolete"][:80]))
    sys.exit(0)
man = json.load(open(os.path.join(ROOT, "MANIFEST.json")))
checks = {c["property_id"]: c for c in man["checks"]}
if not ids:
    ids = sorted(checks)
assert subprocess.run(["git", "-C", "/repo", "status", "--porcelain", "--untracked-files=no"], capture_output=True, text=True).stdout.strip() == "", "/repo not clean"
subprocess.run(["git", "-C", "/repo", "apply", patch], check=True)
res = meta.setdefault("detected_by", {})
try:
    for i in ids:
        cmd = checks[i]["quick_cmd" if tier == "quick" else "thorough_cmd"] if i in checks else "python3 checks/check.py %s --tier %s" % (i, tier)
        t0 = time.time()
        p = subprocess.run(cmd, shell=True, cwd=ROOT, capture_output=True, text=True, env=dict(os.environ, VERIF_SEED=os.environ.get("VERIF_SEED", "1"), VERIF_TIER=tier))
        v = [l for l in p.stdout.splitlines() if l.startswith("VIOLATION")]
        print("%s %s rc=%d %ds %s" % (tag, i, p.returncode, time.time() - t0, (v[0][:200] if v else p.stdout.strip().splitlines()[-1][:160] if p.stdout.strip() else p.stderr[-200:])))
        res["%s/%s" % (i, tier)] = {"rc": p.returncode, "violations": [l[:300] for l in v[:4]]}
        if v:
            # keep the first replay as evidence of the catch
            rp = v[0].split("replay=")[1].split()[0]
            if os.path.exists(rp):
                res["%s/%s" % (i, tier)]["replay_excerpt"] = open(rp).read()[:1500]
finally:
    subprocess.run(["git", "-C", "/repo", "checkout", "--", "."], check=True)
json.dump(meta, open(meta_p, "w"), indent=1)
