#!/bin/sh
# every seeded change against every registered check (quick tier); results accumulate in seeded/<id>/meta.json
cd "$(dirname "$0")/.."
for d in seeded/*/; do
  t=$(basename $d)
  python3 tools/seed_eval.py $t quick
done
