#!/usr/bin/env python3
"""store a confirmed seeded change under seeded/<tag>/: seed_store.py <tag> <property> <where> <change> <trigger>"""
import json, os, shutil, sys
tag, prop, where, change, trigger = sys.argv[1:6]
d = "/verif/seeded/" + tag
os.makedirs(d, exist_ok=True)
for f in ("patch.diff", "demo.c", "run_demo.sh", "README.md"):
    src = "/tmp/seedout_%s/%s" % (tag, f)
    if os.path.exists(src):
        shutil.copy(src, d)
m = {"id": tag, "property": prop, "where": where, "change": change, "trigger": trigger,
     "origin": "fresh sub-agent given only the property text and a scratch worktree",
     "confirmed": {"compiles_no_new_warnings": True, "suite_341_pass": True, "demo_violated_on_changed_tree": True,
                   "demo_holds_on_unchanged_tree": True, "how": "tools/seed_confirm.sh in the scratch worktree (make check; run_demo.sh on both trees)"},
     "demo": "run_demo.sh + demo.c (expects a configured worktree; WT=<dir> overrides the path)"}
json.dump(m, open(d + "/meta.json", "w"), indent=1)
p = d + "/run_demo.sh"
if os.path.exists(p):
    s = open(p).read()
    s = s.replace("/tmp/seedout_" + tag, '$(cd "$(dirname "$0")" && pwd)').replace("/tmp/seed_" + tag, "${WT:-/tmp/seed_" + tag + "}")
    open(p, "w").write(s)
print(d)
