#!/bin/sh
# every stored seeded change against the check of its own property (quick tier); one line per seed
cd "$(dirname "$0")/.."
for d in seeded/*/; do
  t=$(basename $d)
  p=$(python3 -c "import json;print(json.load(open('$d/meta.json'))['property'])")
  if ! git -C /repo apply --check "$(pwd)/$d/patch.diff" 2>/dev/null; then
    if python3 -c "import json,sys;sys.exit(0 if json.load(open('$d/meta.json')).get('obsolete') else 1)"; then echo "$t $p obsolete (patch no longer applies)"; else echo "$t $p PATCH-DOES-NOT-APPLY"; fi
    continue
  fi
  python3 tools/seed_eval.py $t quick $p 2>&1 | tail -1
done
