#!/usr/bin/env python3
"""write the task text for a seeded-mutation sub-agent: only the property's text and its scratch worktree."""
import json, sys
TEMPLATE = """You are helping to test a verification effort by seeding ONE realistic defect into a C library.

You have your own scratch git worktree of the C library libhtp (OISF/libhtp, a streaming HTTP/1.x parser) at
  {wt}
It is already configured and built in-tree with autotools.  `make -j8 check` in that directory rebuilds what changed and
runs the project's gtest suite (341 tests); the result is in test/test_all.log, whose last lines must read
"[  PASSED  ] 341 tests." and "PASS test_all".  A static library is at htp/.libs/libhtp.a (link with -lz).
Work ONLY inside that directory and inside {out} (create it).  Do NOT read or write /repo or /verif, and do not commit.

The property under test (this is all you are told about it):

  {id}: {title}

  {statement}

  Quantified over: {quant}

  Files the property is anchored in: {files}

Task.  Make one small, realistic source change under htp/ - the kind of slip a maintainer makes in a refactor, an
optimisation or a clean-up (an off-by-one, a dropped or inverted condition, a wrong comparison, a state variable not reset,
a wrong constant, a reordered statement, an early return...) - that BREAKS the property above while
  (a) the library still compiles with no new warnings,
  (b) the complete existing test suite still passes unedited (341 tests), and
  (c) the break needs something specific to manifest: a particular input shape, chunking, configuration or call sequence -
      not a failure on every input.  Prefer a subtle change over a blatant one; do not add obviously malicious code.
{extra}
Then write a demonstration: a small C program (public API; include "htp/htp.h" - private headers such as
htp/htp_private.h may be used if the property concerns an internal primitive) plus a script showing the property violated on
the changed tree and holding on the unchanged tree (e.g. `git stash` / `git stash pop`, rebuilding htp/.libs/libhtp.a with
`make -j8 -C htp` each time).

Deliver in {out}/ :
  patch.diff    - `git diff` of the worktree (source files under htp/ only)
  demo.c        - the demonstration program (or demo input files)
  run_demo.sh   - builds and runs the demo against {wt}'s library; prints one clear line, either
                  "PROPERTY VIOLATED: <what>" or "PROPERTY HOLDS"
  README.md     - the change; why it breaks the property; what specific condition triggers it; the demo's output on the
                  unchanged and on the changed tree; confirmation that the 341 tests pass with the change
Verify yourself that the tests pass with the change applied and that the demo distinguishes the two trees.  Leave the worktree
with the patch applied.  Your final reply: a summary of at most 150 words.
"""
def main():
    pid = sys.argv[1]; tag = sys.argv[2] if len(sys.argv) > 2 else pid
    extra = sys.argv[3] if len(sys.argv) > 3 else ""
    for l in open("/verif/properties.jsonl"):
        p = json.loads(l)
        if p["id"] == pid:
            t = TEMPLATE.format(wt="/tmp/seed_" + tag, out="/tmp/seedout_" + tag, id=pid, title=p["title"], statement=p["statement"],
                                quant=p["quantifier"]["text"], files=", ".join(p["anchors"]["files"]),
                                extra=("\n" + extra + "\n") if extra else "")
            open("/tmp/seedprompt_%s.txt" % tag, "w").write(t)
            print("/tmp/seedprompt_%s.txt" % tag)
main()
