#!/usr/bin/env python3
"""Regenerates MANIFEST.json from the table below (single source of truth for what is claimed)."""
import json, os
ROOT = os.path.dirname(os.path.abspath(__file__))
props = [json.loads(l) for l in open(os.path.join(ROOT, "properties.jsonl"))]
ids = [p["id"] for p in props]

CLAIMS = json.load(open(os.path.join(ROOT, "claims.json")))

m = {
    "version": 1,
    "setup_cmd": "python3 checks/check.py --setup",
    "hooks": {"guard": "LIBHTP_VERIF",
              "enable": "checks compile /repo/htp/*.c themselves with -DLIBHTP_VERIF (clang, ASan+UBSan), see checks/lib.py:build_repo",
              "baseline_off_cmd": "cd /repo && make -j8 && make -C test check",
              "source_commits": CLAIMS.get("hook_commits", []), "add_only": True},
    "engines": [{"name": "lean-model", "path": "lean/", "serves_properties": sorted(CLAIMS["checks"].keys()),
                 "kind_free_text": "Lean 4 model (HtpModel) + property theorems (HtpModel/Props) + compiled line-protocol driver (htpdrv)"},
                {"name": "translator", "path": "extract/", "serves_properties": sorted(CLAIMS["checks"].keys()),
                 "kind_free_text": "regenerated on every run from the current sources: extract.py/tabulate.c tabulate finite functions, tables and constants (Gen/Tables.lean, pinned); ctrans.py translates the control flow of 42 leaf functions from clang's typed AST into Lean terms (Gen/CFuns.lean over HtpModel/CSem.lean), each proved equal to the hand-written model (Lemmas/CFuns*.lean)"},
                {"name": "correspondence", "path": "harness/ checks/", "serves_properties": sorted(CLAIMS["checks"].keys()),
                 "kind_free_text": "C harness on freshly compiled sources vs Lean driver, diff + shrink; property oracles search for failing inputs"}],
    "checks": [],
    "notes": CLAIMS.get("notes", ""),
    "not_applicable": [],
}
for pid in ids:
    c = CLAIMS["checks"].get(pid)
    if c:
        m["checks"].append({
            "property_id": pid,
            "quick_cmd": "python3 checks/check.py %s --tier quick" % pid,
            "thorough_cmd": "python3 checks/check.py %s --tier thorough" % pid,
            "evidence_file": "evidence/%s.json" % pid,
            "replay_cmd_template": "python3 checks/check.py %s --replay {path}" % pid,
            "engine": "lean-model",
            "level_claimed": {"category": "proof", "text": c["text"], "design_ref": c.get("design_ref", "DESIGN.md §5 " + pid)},
            "level_note": c["note"],
            "technique": c["technique"],
        })
    else:
        m["not_applicable"].append({"property_id": pid, "reason": CLAIMS["not_claimed"].get(pid, "not yet claimed: model slice, correspondence slice and headline theorem not all built yet (DESIGN.md §8)")})
json.dump(m, open(os.path.join(ROOT, "MANIFEST.json"), "w"), indent=1)
print("MANIFEST.json: %d checks, %d not claimed" % (len(m["checks"]), len(m["not_applicable"])))
